(* C07 — every built-in metric computes its documented mathematical definition.
   Proved here: the count-based (binary) family, exactly, for ALL count vectors
   (model/Metrics.v mirrors the formulas and special-case branches of
   distances.py).  Geometric / distribution metrics involve float32 kernels whose
   rounding is not modelled: they are compared with float64 references. *)
From Coq Require Import ZArith List Bool Lia.
From PV Require Import Metrics C07Proofs SparseOps Lattice LatticeProofs.
Import ListNotations.
Open Scope Z_scope.

(* the counting loop: swapping the arguments swaps tf and ft; identical inputs have
   tf = ft = 0; counts are non-negative and bounded by the dimension *)
Theorem C07_counts_swap :
  forall x y, length x = length y ->
    counts y x = (let '(a, b, c) := counts x y in (a, c, b)).
Proof. exact counts_swap. Qed.

Theorem C07_counts_identical : forall x, let '(a, b, c) := counts x x in b = 0 /\ c = 0.
Proof. exact counts_identical. Qed.

Theorem C07_counts_bounds :
  forall x y, length x = length y ->
    let '(a, b, c) := counts x y in 0 <= a /\ 0 <= b /\ 0 <= c /\ a + b + c <= Z.of_nat (length x).
Proof. exact counts_bounds. Qed.

(* symmetric in their arguments *)
Theorem C07_binary_symmetric :
  forall n a b c,
  m_hamming n b c = m_hamming n c b /\ m_matching n b c = m_matching n c b /\
  m_jaccard a b c = m_jaccard a c b /\ m_dice a b c = m_dice a c b /\
  m_kulsinski n a b c = m_kulsinski n a c b /\ m_rogerstanimoto n b c = m_rogerstanimoto n c b /\
  m_sokalmichener n b c = m_sokalmichener n c b /\ m_russellrao n a b c = m_russellrao n a c b /\
  m_sokalsneath a b c = m_sokalsneath a c b /\ feq (m_yule n a b c) (m_yule n a c b).
Proof. exact binary_symmetric. Qed.
Print Assumptions C07_binary_symmetric.

(* identical inputs are at distance exactly 0 *)
Theorem C07_binary_identity :
  forall n a,
  fst (m_hamming n 0 0) = 0 /\ fst (m_matching n 0 0) = 0 /\ fst (m_jaccard a 0 0) = 0 /\ fst (m_dice a 0 0) = 0 /\
  fst (m_kulsinski n a 0 0) = 0 /\ fst (m_rogerstanimoto n 0 0) = 0 /\ fst (m_sokalmichener n 0 0) = 0 /\
  fst (m_russellrao n a 0 0) = 0 /\ fst (m_sokalsneath a 0 0) = 0 /\ fst (m_yule n a 0 0) = 0.
Proof. exact binary_identity. Qed.
Print Assumptions C07_binary_identity.

(* never 0/0 or x/0: every denominator is positive on the branch that divides *)
Theorem C07_binary_no_division_by_zero :
  forall n a b c, counts_ok n a b c ->
  0 < snd (m_hamming n b c) /\ 0 < snd (m_matching n b c) /\ 0 < snd (m_jaccard a b c) /\ 0 < snd (m_dice a b c) /\
  0 < snd (m_kulsinski n a b c) /\ 0 < snd (m_rogerstanimoto n b c) /\ 0 < snd (m_sokalmichener n b c) /\
  0 < snd (m_russellrao n a b c) /\ 0 < snd (m_sokalsneath a b c) /\ 0 < snd (m_yule n a b c).
Proof. exact binary_denominators_positive. Qed.
Print Assumptions C07_binary_no_division_by_zero.

(* documented ranges *)
Theorem C07_binary_range :
  forall n a b c, counts_ok n a b c ->
  (0 <= fst (m_hamming n b c) <= snd (m_hamming n b c)) /\
  (0 <= fst (m_jaccard a b c) <= snd (m_jaccard a b c)) /\
  (0 <= fst (m_dice a b c) <= snd (m_dice a b c)) /\
  (0 <= fst (m_kulsinski n a b c) <= snd (m_kulsinski n a b c)) /\
  (0 <= fst (m_rogerstanimoto n b c) <= snd (m_rogerstanimoto n b c)) /\
  (0 <= fst (m_russellrao n a b c) <= snd (m_russellrao n a b c)) /\
  (0 <= fst (m_sokalsneath a b c) <= snd (m_sokalsneath a b c)) /\
  (0 <= fst (m_yule n a b c) <= 2 * snd (m_yule n a b c)).
Proof. exact binary_range. Qed.
Print Assumptions C07_binary_range.

Example C07_example :
  counts [true; true; false; false; true] [true; false; true; false; true] = (2, 1, 1) /\
  m_jaccard 2 1 1 = (2, 4) /\ m_yule 5 2 1 1 = (2, 3) /\ counts_ok 5 2 1 1.
Proof. vm_compute. repeat split; try reflexivity; discriminate. Qed.

(* ------------------------------------------------------------------------------
   The polynomial ("lattice") family: squared_euclidean, manhattan, chebyshev,
   hamming (numerator / dimension) and bray_curtis (numerator / denominator), for
   ALL integer vectors of ALL lengths (model/Lattice.v mirrors the accumulator loops
   of distances.py).  On float32 vectors holding small integers the compiled kernels
   are exact, so the correspondence stream compares them with these values bit for
   bit; for general float32 inputs the rounding of the kernels is not modelled (the
   float64 reference comparison covers them). *)
Theorem C07_lattice_symmetric : forall x y,
  squared_euclidean x y = squared_euclidean y x /\
  manhattan x y = manhattan y x /\
  chebyshev x y = chebyshev y x /\
  (length x = length y -> hamming x y = hamming y x) /\
  bray_curtis x y = bray_curtis y x.
Proof. exact lattice_symmetric. Qed.
Print Assumptions C07_lattice_symmetric.

Theorem C07_lattice_identity : forall x,
  squared_euclidean x x = 0 /\ manhattan x x = 0 /\ chebyshev x x = 0 /\
  fst (hamming x x) = 0 /\ fst (bray_curtis x x) = 0.
Proof. exact lattice_identity. Qed.
Print Assumptions C07_lattice_identity.

Theorem C07_lattice_nonneg : forall x y,
  0 <= squared_euclidean x y /\ 0 <= manhattan x y /\ 0 <= chebyshev x y /\ 0 <= fst (hamming x y).
Proof. exact lattice_nonneg. Qed.
Print Assumptions C07_lattice_nonneg.

(* zero ONLY for identical vectors (these four are metrics, not just dissimilarities) *)
Theorem C07_lattice_indiscernible : forall x y, length x = length y ->
  (squared_euclidean x y = 0 -> x = y) /\ (manhattan x y = 0 -> x = y) /\
  (chebyshev x y = 0 -> x = y) /\ (fst (hamming x y) = 0 -> x = y).
Proof. exact lattice_indiscernible. Qed.
Print Assumptions C07_lattice_indiscernible.

Theorem C07_lattice_triangle : forall x y z, length x = length y -> length y = length z ->
  manhattan x z <= manhattan x y + manhattan y z /\
  chebyshev x z <= chebyshev x y + chebyshev y z /\
  fst (hamming x z) <= fst (hamming x y) + fst (hamming y z).
Proof. exact lattice_triangle. Qed.
Print Assumptions C07_lattice_triangle.

(* bray_curtis divides only by a positive denominator (never 0/0 -> NaN), and lies in
   [0, 1] on non-negative data *)
Theorem C07_bray_curtis_no_division_by_zero : forall x y, 0 < snd (bray_curtis x y).
Proof. exact bray_curtis_denominator_positive. Qed.
Print Assumptions C07_bray_curtis_no_division_by_zero.

Theorem C07_bray_curtis_range : forall x y,
  Forall (fun a => 0 <= a) x -> Forall (fun b => 0 <= b) y ->
  0 <= fst (bray_curtis x y) <= snd (bray_curtis x y).
Proof. exact bray_curtis_range. Qed.
Print Assumptions C07_bray_curtis_range.

Example C07_lattice_example :
  squared_euclidean [3; -1; 0; 2] [1; -1; 4; 2] = 20 /\ manhattan [3; -1; 0; 2] [1; -1; 4; 2] = 6 /\
  chebyshev [3; -1; 0; 2] [1; -1; 4; 2] = 4 /\ hamming [3; -1; 0; 2] [1; -1; 4; 2] = (2, 4) /\
  bray_curtis [3; 1; 0; 2] [1; 1; 4; 2] = (6, 14) /\ bray_curtis [0; 0] [0; 0] = (0, 1).
Proof. vm_compute. repeat split; reflexivity. Qed.

(* ------------------------------------------------------------------------------
   The angular family (cosine, alternative_cosine, true_angular, dot, alternative_dot):
   the accumulated triple (result, norm_x, norm_y) obeys Cauchy-Schwarz, so the ratio
   result / sqrt(norm_x * norm_y) handed to the transcendental wrapper has a positive
   radicand, a non-zero divisor and lies in [-1, 1] - the exact-arithmetic root of
   "never NaN" and of the range [0, 2]; identical inputs give the ratio exactly 1
   (distance 0) or take the zero-vector branch (0.0); the value is symmetric. *)
Theorem C07_cauchy_schwarz : forall x y,
  let '(r, nx, ny) := cos_loop 0 0 0 x y in 0 <= nx /\ 0 <= ny /\ r * r <= nx * ny.
Proof. exact cauchy_schwarz. Qed.
Print Assumptions C07_cauchy_schwarz.

Theorem C07_cosine_ratio_in_range : forall x y r q, cosine x y = ARatio r q -> 0 < q /\ r * r <= q.
Proof. exact cosine_ratio_in_range. Qed.
Print Assumptions C07_cosine_ratio_in_range.

Theorem C07_cosine_identical : forall x,
  cosine x x = AZero \/ exists r, 0 < r /\ cosine x x = ARatio r (r * r) /\ alternative_cosine x x = ARatio r (r * r).
Proof. exact cosine_identical. Qed.
Print Assumptions C07_cosine_identical.

Theorem C07_angular_symmetric : forall x y,
  (cosine x y = cosine y x /\ alternative_cosine x y = alternative_cosine y x) /\
  (dot x y = dot y x /\ alternative_dot x y = alternative_dot y x).
Proof. intros x y. split; [apply cosine_symmetric | apply dot_symmetric]. Qed.
Print Assumptions C07_angular_symmetric.

Example C07_angular_example :
  cosine [3; 0; -4] [3; 0; -4] = ARatio 25 625 /\ cosine [1; 2] [-2; 1] = ARatio 0 25 /\ cosine [0; 0] [0; 0] = AZero /\
  cosine [0; 0] [1; 0] = AOne /\ alternative_cosine [1; 2] [-2; 1] = AMax /\ dot [1; 2] [2; 1] = ARatio 4 1.
Proof. vm_compute. repeat split; reflexivity. Qed.
