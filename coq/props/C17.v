(* C17 — the caller's arrays are never modified.
   Ownership model (model/Alias.v) of the API operations over every input configuration
   (dtype x layout x dense/CSR x sorted/unsorted indices x metric class): for EVERY history
   of operations no caller buffer is written.  The model's alias rules for check_array,
   normalize, astype, fancy indexing are modelling assumptions; they are what the harness
   checks against the implementation after every operation (np.shares_memory and byte
   hashes of every caller array). *)
From Coq Require Import List Bool.
From PV Require Import Alias C17Proofs.
Import ListNotations.

Theorem C17_no_caller_write : forall ops s, all_writes false s ops = [].
Proof. exact no_caller_write. Qed.
Print Assumptions C17_no_caller_write.

(* the decision that makes the aliased float32 case safe under the normalising metric *)
Theorem C17_aliased_input_is_copied_before_normalising :
  forall c, check_array_aliases F32 c = true -> copy_on_normalize c = true.
Proof. exact aliased_implies_copy. Qed.
Print Assumptions C17_aliased_input_is_copied_before_normalising.

(* the pinned tree, which sorted an aliased CSR matrix in place, violates the property *)
Theorem C17_pinned_constructor_refuted : exists c m t, snd (construct true c m t) = [BufX].
Proof. exact pinned_sort_refuted. Qed.
Theorem C17_pinned_query_refuted : exists s q, idx_sparse s = true /\ snd (step true s (Query q)) = [BufQ].
Proof. exact pinned_query_sort_refuted. Qed.

(* non-vacuity: a history on which the index really aliases the caller's buffer *)
Example C17_alias_example :
  run false init_state [Construct {| a_dt := F32; a_c := true; a_sparse := false; a_sorted := true |} Plain false; Prepare;
                        Query {| a_dt := F32; a_c := true; a_sparse := false; a_sorted := true |};
                        Update {| a_dt := F32; a_c := true; a_sparse := false; a_sorted := true |} {| a_dt := F32; a_c := true; a_sparse := false; a_sorted := true |}]
  = [(true, []); (true, []); (true, []); (false, [])].
Proof. reflexivity. Qed.
