(* C18 — the scikit-learn transformer reports exactly what the index found.
   Model of the COO assembly and CSR conversion of PyNNDescentTransformer.transform
   (duplicates are summed by the conversion, as scipy does): for every (indices, distances)
   pair of arrays whose rows list each column at most once, row i of the result stores
   exactly the pairs (indices[i][c], distances[i][c]), in order, and nothing else; rows
   beyond the query count are empty.  That the arrays ARE what index_.query /
   neighbor_graph return for n_neighbors and search_epsilon is checked on the
   implementation (spy on the calls), as are the reference distances. *)
From Coq Require Import ZArith List Bool Arith.
From PV Require Import Transformer C18Proofs.
Import ListNotations.
Open Scope Z_scope.

Theorem C18_row_exact : forall ind dist i,
  length ind = length dist -> (i < length ind)%nat ->
  nodupb (nth i ind []) = true -> length (nth i ind []) = length (nth i dist []) ->
  transform_row ind dist i = combine (nth i ind []) (nth i dist []).
Proof. exact transform_row_exact. Qed.
Print Assumptions C18_row_exact.

Theorem C18_no_other_rows : forall ind dist i,
  length ind = length dist -> (length ind <= i)%nat -> transform_row ind dist i = [].
Proof. exact transform_row_outside. Qed.
Print Assumptions C18_no_other_rows.

(* why the no-duplicate premise is needed: a column listed twice in a row is merged and summed *)
Example C18_duplicates_are_summed :
  transform_row [[3; 5; 3]] [[10; 20; 30]] 0 = [(3, 40); (5, 20)].
Proof. reflexivity. Qed.
Example C18_example :
  transform_row [[2; 0]; [1; 2]] [[0; 7]; [0; 4]] 1 = [(1, 0); (2, 4)].
Proof. reflexivity. Qed.
