(* C19 — an index never leaves the process-wide thread setting changed.
   Skeleton terms are regenerated from /repo's source on every run
   (harness/skel/translate.py -> coq/gen/SkelGen.v); this file holds the
   once-and-for-all soundness theorem of the checker that is evaluated on them. *)
From Coq Require Import ZArith List Bool Lia.
From PV Require Import Skel C19Proofs.
Import ListNotations.
Open Scope Z_scope.

(* If restores_chk accepts a skeleton then, for every resolution of branches and
   every fault sequence (each may-raise call independently raising or not, faults
   inside finally blocks included), every thread count t0 at entry, every stale
   value s0 of the saved attribute and every n_jobs, the thread count after the
   method — returned or raised — is t0. *)
Theorem C19_restores_chk_sound :
  forall t0 s0 nj s, restores_chk s = true ->
    forall oracle, fst (snd (fst (exec nj s oracle (t0, s0)))) = t0.
Proof. exact restores_chk_sound. Qed.
Print Assumptions C19_restores_chk_sound.

(* the shape of the pinned constructor (capture; set; calls; restore) is rejected,
   and a fault right after the set really leaves the count changed *)
Definition pinned_shape : stmt := Seq Capture (Seq SetThreads (Seq Call Restore)).
Example C19_pinned_shape_rejected : restores_chk pinned_shape = false.
Proof. vm_compute. reflexivity. Qed.
Example C19_pinned_shape_witness :
  fst (snd (fst (exec 2 pinned_shape [true] (16, 0)))) = 2.
Proof. vm_compute. reflexivity. Qed.

(* try/finally shape accepted *)
Definition repaired_shape : stmt := Seq Capture (TryFinally (Seq SetThreads (Seq Call (Choice Raise Call))) Restore).
Example C19_repaired_shape_accepted : restores_chk repaired_shape = true.
Proof. vm_compute. reflexivity. Qed.

(* a nested call that overwrites the shared saved attribute is rejected (two sites
   that each look fine alone) *)
Definition nested_shape : stmt :=
  Seq Capture (TryFinally (Seq SetThreads (Seq Capture (TryFinally (Seq SetThreads Call) Restore))) Restore).
Example C19_nested_shared_slot_rejected : restores_chk nested_shape = false.
Proof. vm_compute. reflexivity. Qed.

(* a restore from a value captured in an EARLIER call (stale) is rejected *)
Example C19_stale_restore_rejected : restores_chk (Seq SetThreads (Seq Call Restore)) = false.
Proof. vm_compute. reflexivity. Qed.
