(* C12 — low_memory never changes the result.
   Model: model/NND.v (apply_graph_updates_low_memory / _high_memory as
   transcribed from utils.py; the boolean [second_row_is_q] selects the repaired
   second branch (push (d,p) into row q) or the pinned one (push (d,q) into row
   p again); the correspondence check decides which one /repo implements). *)
From Coq Require Import ZArith List Bool Lia Permutation.
From PV Require Import Base Heap Rng NND ListAux HeapProofs HeapTopK HeapArrays NNDProofs C12Proofs.
Import ListNotations.
Open Scope Z_scope.

(* For every graph whose rows are max-heaps carrying each neighbour's own
   distance, and every list of update lists whose triples (p,q,d) carry the
   (symmetric) distance of p and q, the high-memory path started with
   in_graph = the index rows produces the same heaps and the same change count as
   the low-memory path. *)
Theorem C12_high_eq_low :
  forall (delta : nat -> Z -> Z) (n k : nat) (g : graph) (ups : list (list update)),
    (0 < k)%nat -> wf_graph n k g ->
    (forall r, (r < n)%nat -> RowInv delta r (grow g r)) ->
    Forall (Forall (upd_ok delta n)) ups ->
    apply_graph_updates_low_memory g ups 1 =
    (fst (fst (apply_graph_updates_high_memory true g ups (g_ind g))),
     snd (apply_graph_updates_high_memory true g ups (g_ind g))).
Proof.
  intros delta n k g ups Hk Hwf Hrows Hok.
  unfold apply_graph_updates_high_memory, apply_graph_updates_low_memory.
  cbn [seq map fold_left].
  exact (high_eq_low_proj delta n k Hk ups g (g_ind g) 0 (GI_initial delta n k Hk g Hwf Hrows) Hok).
Qed.
Print Assumptions C12_high_eq_low.

(* The pinned second branch (row p twice) is NOT equivalent: one update on two
   empty 1-slot heaps.  Low-memory fills both rows, the pinned high-memory path
   only row 0. *)
Definition c12_g0 : graph := make_heap 100 2 1.
Definition c12_ups : list (list update) := [[(-1, -1, 100); (0, 1, 5)]].

Theorem C12_pinned_second_branch_refuted :
  fst (fst (apply_graph_updates_high_memory false c12_g0 c12_ups (g_ind c12_g0)))
  <> fst (apply_graph_updates_low_memory c12_g0 c12_ups 1).
Proof. vm_compute. intros H. discriminate H. Qed.
Print Assumptions C12_pinned_second_branch_refuted.

(* non-vacuity: the witness above meets every hypothesis of C12_high_eq_low
   (so the repaired path and the low-memory path agree on it) *)
Example C12_example_agree :
  let '(gh, _, ch) := apply_graph_updates_high_memory true c12_g0 c12_ups (g_ind c12_g0) in
  apply_graph_updates_low_memory c12_g0 c12_ups 1 = (gh, ch) /\ ch = 2 /\ g_ind gh = [[1]; [0]].
Proof. vm_compute. repeat split; reflexivity. Qed.

(* ---- every thread count (added).  The equality above is stated for the single-thread order of the
   low-memory kernel; utils.apply_graph_updates_low_memory runs with n_threads = the numba thread
   count.  By the row-ownership argument of C05 the kernel's result does not depend on the number
   of threads, so low = high holds for every thread count. ---- *)
From PV Require Import Par C05Proofs C05Threads.

Theorem C12_low_memory_thread_count_irrelevant :
  forall ups n T g, (0 < T)%nat -> C05Proofs.wf g n -> C05Proofs.ups_ok n ups ->
    apply_graph_updates_low_memory g ups T = apply_graph_updates_low_memory g ups 1.
Proof. exact apply_low_any_thread_count. Qed.
Print Assumptions C12_low_memory_thread_count_irrelevant.

Theorem C12_high_eq_low_any_thread_count :
  forall (delta : nat -> Z -> Z) (n k T : nat) (g : graph) (ups : list (list update)),
    (0 < k)%nat -> (0 < T)%nat -> wf_graph n k g ->
    (forall r, (r < n)%nat -> RowInv delta r (grow g r)) ->
    Forall (Forall (C12Proofs.upd_ok delta n)) ups -> C05Proofs.ups_ok n ups ->
    apply_graph_updates_low_memory g ups T =
    (fst (fst (apply_graph_updates_high_memory true g ups (g_ind g))),
     snd (apply_graph_updates_high_memory true g ups (g_ind g))).
Proof.
  intros delta n k T g ups Hk HT Hwf Hrows Hok Hok5.
  assert (W : C05Proofs.wf g n) by (destruct Hwf as [A [B [C _]]]; repeat split; auto).
  rewrite (apply_low_any_thread_count ups n T g HT W Hok5).
  apply (C12_high_eq_low delta n k g ups Hk Hwf Hrows Hok).
Qed.
Print Assumptions C12_high_eq_low_any_thread_count.
