(* C01 — the k-neighbour graph is well formed and every reported distance is true.
   Model: model/NND.v + model/Heap.v.  [dm a b] is dist(data[a], data[b]) as an
   order key (the internal, possibly surrogate, metric; the correction on
   read-out is C09); the theorems need dm symmetric and bounded by +inf. *)
From Coq Require Import ZArith List Bool Lia Permutation.
From PV Require Import Base Heap Rng NND ListAux HeapProofs HeapTopK HeapArrays HeapSort NNDProofs C01Proofs.
Import ListNotations.
Open Scope Z_scope.

Section C01.
  Variable dm : nat -> nat -> Z.
  Variable inf : Z.
  Variables n k : nat.
  Hypothesis Hk : (0 < k)%nat.
  Hypothesis dm_sym : forall a b, dm a b = dm b a.
  Hypothesis dm_le_inf : forall a b, dm a b <= inf.

  Notation GWF := (GWF dm inf n k).

  (* The graph invariant GWF: n rows of k slots; every row is a max-heap whose real
     entries are pairwise distinct row numbers in [0,n) carrying exactly
     dm(row, entry) < inf, and whose other entries are (-1, +inf). *)

  (* It holds of the empty heap and is preserved by every kernel that writes the
     graph, for all inputs: any leaf array, any generator state, any update
     lists carrying true distances, any thread count, both memory modes (and
     both variants of the high-memory second branch). *)
  Theorem C01_invariant_established : GWF (make_heap inf n k).
  Proof. intros; eapply GWF_make_heap; eauto. Qed.

  Theorem C01_invariant_init_rp_tree :
    forall g leaves, GWF g -> Forall (Forall (id_ok n)) leaves -> GWF (init_rp_tree inf dm g leaves).
  Proof. intros; eapply init_rp_tree_GWF; eauto. Qed.

  Theorem C01_invariant_init_random :
    forall g rng, GWF g -> GWF (fst (init_random dm k n g rng)).
  Proof. intros; eapply init_random_GWF; eauto. Qed.

  Theorem C01_updates_are_true :
    forall thr newc oldc, Forall (Forall (id_ok n)) newc -> Forall (Forall (id_ok n)) oldc ->
      Forall (Forall (upd_true dm n)) (generate_graph_updates inf dm thr newc oldc).
  Proof. intros; eapply generate_graph_updates_true; eauto. Qed.

  Theorem C01_invariant_apply_low :
    forall g ups T, GWF g -> Forall (Forall (upd_true dm n)) ups ->
      GWF (fst (apply_graph_updates_low_memory g ups T)).
  Proof. intros; eapply apply_low_GWF; eauto. Qed.

  Theorem C01_invariant_apply_high :
    forall b g ups ing, GWF g -> Forall (Forall (upd_true dm n)) ups ->
      GWF (fst (fst (apply_graph_updates_high_memory b g ups ing))).
  Proof. intros; eapply apply_high_GWF; eauto. Qed.

  (* One NN-descent round (candidate arrays in range): the invariant survives. *)
  Theorem C01_invariant_round_low :
    forall g newc oldc T, GWF g -> Forall (Forall (id_ok n)) newc -> Forall (Forall (id_ok n)) oldc ->
      GWF (fst (apply_graph_updates_low_memory g (generate_graph_updates inf dm (thresholds g) newc oldc) T)).
  Proof.
    intros g newc oldc T HG Hn Ho.
    eapply apply_low_GWF; eauto.
    eapply generate_graph_updates_true; eauto.
  Qed.

  (* Read-out: sorting a row of a well-formed graph gives exactly the shape the
     property describes — k columns, ascending distances, every real entry a
     distinct in-range row number with its true distance, sentinels (-1, +inf)
     forming a suffix.  Holds for every n and k, n <= k included. *)
  Theorem C01_output_row :
    forall r ds ids fs, length ds = k -> length ids = k -> length fs = k ->
      RowWF dm inf n r (zip3 ds ids fs) ->
      exists ids' ds', deheap_sort_row ids ds = Some (ids', ds') /\ RowOut dm inf n k r ids' ds'.
  Proof. intros; eapply deheap_row_out; eauto. Qed.
End C01.

Print Assumptions C01_invariant_established.
Print Assumptions C01_invariant_init_rp_tree.
Print Assumptions C01_invariant_init_random.
Print Assumptions C01_updates_are_true.
Print Assumptions C01_invariant_apply_low.
Print Assumptions C01_invariant_apply_high.
Print Assumptions C01_invariant_round_low.
Print Assumptions C01_output_row.

(* non-vacuity: four points on a line (0, 1, 2, 10), squared distances, k = 2:
   a complete run of the model of nn_descent (one tree leaf holding everything,
   2 threads) produces the exact 2-nearest-neighbour lists. *)
Definition ex_pts : list Z := [0; 1; 2; 10].
Definition ex_dm (a b : nat) : Z := let d := getZ ex_pts a - getZ ex_pts b in d * d.
Example C01_example_run :
  fst (nn_descent 1000 ex_dm true 4 2 [11; 22; 33] 2 3 0 None (Some [[0; 1; 2; 3]]) true 2)
  = Some ([[1; 2]; [0; 2]; [1; 0]; [2; 1]], [[1; 4]; [1; 1]; [1; 4]; [64; 81]]).
Proof. vm_compute. reflexivity. Qed.

(* ---- the whole of nn_descent (added after the kernel theorems) ---- *)
From PV Require Import C01Loop.

(* the candidate arrays new_build_candidates hands to the local join are always in range *)
Theorem C01_candidates_in_range :
  forall (dm : nat -> nat -> Z) (inf : Z) (n k maxc : nat),
    (0 < k)%nat -> (0 < maxc)%nat ->
    forall g rng T, GWF dm inf n k g ->
      let '(g1, newc, oldc) := new_build_candidates inf g maxc rng T in
      Forall (Forall (id_ok n)) newc /\ Forall (Forall (id_ok n)) oldc.
Proof. intros dm inf n k maxc Hk Hm. exact (new_build_candidates_in_range dm inf n k maxc Hk Hm). Qed.
Print Assumptions C01_candidates_in_range.

(* nn_descent returns the row-wise sort of a heap graph that satisfies the invariant: for every
   generator state, every iteration bound and stopping threshold, every thread count, both
   memory modes (and both variants of the high-memory branch), with in-range tree leaves,
   without trees, or started from a caller-supplied well-formed heap *)
Theorem C01_nn_descent_invariant :
  forall (dm : nat -> nat -> Z) (inf : Z) (n k maxc : nat),
    (0 < k)%nat -> (0 < maxc)%nat -> (forall a b, dm a b = dm b a) ->
    forall b rng iters thr_c init leaves low T,
      (match init with Some g => GWF dm inf n k g | None => True end) ->
      (match leaves with Some lv => Forall (Forall (id_ok n)) lv | None => True end) ->
      GWF dm inf n k (nn_descent_heap dm inf n k maxc b rng iters thr_c init leaves low T) /\
      fst (nn_descent inf dm b n k rng maxc iters thr_c init leaves low T) =
      deheap_graph (nn_descent_heap dm inf n k maxc b rng iters thr_c init leaves low T).
Proof.
  intros dm inf n k maxc Hk Hm Hs b rng iters thr_c init leaves low T Hi Hl. split.
  - apply nn_descent_GWF; auto.
  - apply nn_descent_is_sorted_heap.
Qed.
Print Assumptions C01_nn_descent_invariant.
