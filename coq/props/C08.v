(* C08 — sparse metrics agree with their dense counterparts.
   Model: model/SparseOps.v (the two-pointer merges every sparse metric is built
   from).  [sget v i] reads the densified vector at index i; [sorted_gt k v] says
   the indices are strictly increasing (and > k), which is what sort_indices()
   establishes.  Values are exact integers. *)
From Coq Require Import ZArith List Bool Lia.
From PV Require Import SparseOps C08Proofs Lattice LatticeProofs.
Import ListNotations.
Open Scope Z_scope.

(* sparse_sum / sparse_diff: for every pair of sorted sparse vectors (every support
   pattern: empty, identical, disjoint, nested, overlapping) the result is sorted
   and densifies to the pointwise sum / difference. *)
Theorem C08_sparse_sum :
  forall a b k, sorted_gt k a -> sorted_gt k b ->
    sorted_gt k (sparse_sum a b) /\ forall i, sget (sparse_sum a b) i = sget a i + sget b i.
Proof. exact sparse_sum_spec. Qed.
Print Assumptions C08_sparse_sum.

Theorem C08_sparse_diff :
  forall a b k, sorted_gt k a -> sorted_gt k b ->
    sorted_gt k (sparse_diff a b) /\ forall i, sget (sparse_diff a b) i = sget a i - sget b i.
Proof. exact sparse_diff_spec. Qed.
Print Assumptions C08_sparse_diff.

(* sparse_mul densifies to the pointwise product ... *)
Theorem C08_sparse_mul :
  forall a b k, sorted_gt k a -> sorted_gt k b ->
    sorted_gt k (sparse_mul a b) /\ forall i, sget (sparse_mul a b) i = sget a i * sget b i.
Proof. exact sparse_mul_spec. Qed.
Print Assumptions C08_sparse_mul.

(* ... and sparse_dot_product is the sum of its entries (with the repaired guard: an
   empty operand gives 0), i.e. the dense dot product. *)
Theorem C08_sparse_dot :
  forall a b, sparse_dot_product a b = sumvals (sparse_mul a b).
Proof. exact sparse_dot_is_sum_of_mul. Qed.
Print Assumptions C08_sparse_dot.

(* fast_intersection_size = |supp a /\ supp b| on sorted index lists: the quantity all
   sparse binary metrics (jaccard, dice, matching, kulsinski, rogerstanimoto,
   russellrao, sokalsneath, sokalmichener) are formulas of, together with the two
   support sizes (so tf = |a| - inter, ft = |b| - inter, as in the dense counts). *)
Theorem C08_fast_intersection_size :
  forall l1 l2 k, isorted_gt k l1 -> isorted_gt k l2 ->
    fast_intersection_size l1 l2 = inter_size l1 l2.
Proof. exact fast_intersection_size_spec. Qed.
Print Assumptions C08_fast_intersection_size.

(* non-vacuity: overlapping supports *)
Example C08_example :
  sparse_sum [(0, 2); (3, -1); (5, 4)] [(3, 1); (4, 7)] = [(0, 2); (4, 7); (5, 4)] /\
  sparse_mul [(0, 2); (3, -1); (5, 4)] [(3, 1); (4, 7)] = [(3, -1)] /\
  sparse_dot_product [(0, 2); (3, -1); (5, 4)] [(3, 1); (4, 7)] = -1 /\
  fast_intersection_size [0; 3; 5] [3; 4] = 1.
Proof. vm_compute. repeat split; reflexivity. Qed.

(* ------------------------------------------------------------------------------
   The property itself for the polynomial family: the sparse kernel applied to the
   CSR encodings [sparsify 0 x], [sparsify 0 y] of two vectors returns exactly what the
   dense kernel returns on the vectors - for ALL integer vectors of all lengths, hence
   for every pair of supports (empty, identical, disjoint, nested, overlapping).
   Route: sparse_diff of two encodings IS the encoding of the pointwise difference
   (sorted sparse vectors without stored zeros are canonical), and the accumulators
   skip exactly the entries that contribute nothing. *)
Theorem C08_sparse_output_has_no_stored_zero : forall a b, nz (sparse_sum a b) /\ nz (sparse_diff a b).
Proof. intros a b. split; [apply nz_sparse_sum | apply nz_sparse_diff]. Qed.
Print Assumptions C08_sparse_output_has_no_stored_zero.

Theorem C08_canonical : forall v w k,
  sorted_gt k v -> nz v -> sorted_gt k w -> nz w -> (forall i, sget v i = sget w i) -> v = w.
Proof. exact canonical. Qed.
Print Assumptions C08_canonical.

Theorem C08_sparse_diff_of_encodings : forall x y s, length x = length y ->
  sparse_diff (sparsify s x) (sparsify s y) = sparsify s (sub2 x y).
Proof. exact sparse_diff_sparsify. Qed.
Print Assumptions C08_sparse_diff_of_encodings.

Theorem C08_sparse_eq_dense : forall x y, length x = length y ->
  sparse_squared_euclidean (sparsify 0 x) (sparsify 0 y) = squared_euclidean x y /\
  sparse_manhattan (sparsify 0 x) (sparsify 0 y) = manhattan x y /\
  sparse_chebyshev (sparsify 0 x) (sparsify 0 y) = chebyshev x y /\
  sparse_hamming (sparsify 0 x) (sparsify 0 y) (Z.of_nat (length x)) = hamming x y.
Proof. exact sparse_eq_dense. Qed.
Print Assumptions C08_sparse_eq_dense.

Example C08_lattice_example :
  sparsify 0 [3; 0; 0; 2; -1] = [(0, 3); (3, 2); (4, -1)] /\
  sparse_diff (sparsify 0 [3; 0; 0; 2; -1]) (sparsify 0 [3; 0; 5; 0; -1]) = [(2, -5); (3, 2)] /\
  sparse_manhattan (sparsify 0 [3; 0; 0; 2; -1]) (sparsify 0 [3; 0; 5; 0; -1]) = 7 /\
  sparse_hamming (sparsify 0 [3; 0; 0; 2; -1]) (sparsify 0 [3; 0; 5; 0; -1]) 5 = (2, 5).
Proof. vm_compute. repeat split; reflexivity. Qed.

(* the same for the angular pair: sparse_cosine / sparse_alternative_cosine on the CSR encodings take the same branch
   (zero / one / sentinel / ratio) on the same exact (result, norm_x * norm_y) as the dense kernels, for all integer
   vectors: sparse_mul of two encodings IS the encoding of the pointwise product *)
Theorem C08_sparse_mul_of_encodings : forall x y s, length x = length y ->
  sparse_mul (sparsify s x) (sparsify s y) = sparsify s (mul2 x y).
Proof. exact sparse_mul_sparsify. Qed.
Print Assumptions C08_sparse_mul_of_encodings.

Theorem C08_sparse_cosine_eq_dense : forall x y, length x = length y ->
  sparse_cosine (sparsify 0 x) (sparsify 0 y) = cosine x y /\
  sparse_alternative_cosine (sparsify 0 x) (sparsify 0 y) = alternative_cosine x y.
Proof. exact sparse_cosine_eq_dense. Qed.
Print Assumptions C08_sparse_cosine_eq_dense.

Example C08_cosine_example :
  sparse_cosine (sparsify 0 [3; 0; -4; 0]) (sparsify 0 [0; 2; -4; 0]) = ARatio 16 500 /\
  sparse_cosine (sparsify 0 [0; 0]) (sparsify 0 [0; 0]) = AZero /\
  sparse_alternative_cosine (sparsify 0 [1; 2]) (sparsify 0 [-2; 1]) = AMax.
Proof. vm_compute. repeat split; reflexivity. Qed.
