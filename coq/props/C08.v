(* C08 — sparse metrics agree with their dense counterparts.
   Model: model/SparseOps.v (the two-pointer merges every sparse metric is built
   from).  [sget v i] reads the densified vector at index i; [sorted_gt k v] says
   the indices are strictly increasing (and > k), which is what sort_indices()
   establishes.  Values are exact integers. *)
From Coq Require Import ZArith List Bool Lia.
From PV Require Import SparseOps C08Proofs.
Import ListNotations.
Open Scope Z_scope.

(* sparse_sum / sparse_diff: for every pair of sorted sparse vectors (every support
   pattern: empty, identical, disjoint, nested, overlapping) the result is sorted
   and densifies to the pointwise sum / difference. *)
Theorem C08_sparse_sum :
  forall a b k, sorted_gt k a -> sorted_gt k b ->
    sorted_gt k (sparse_sum a b) /\ forall i, sget (sparse_sum a b) i = sget a i + sget b i.
Proof. exact sparse_sum_spec. Qed.
Print Assumptions C08_sparse_sum.

Theorem C08_sparse_diff :
  forall a b k, sorted_gt k a -> sorted_gt k b ->
    sorted_gt k (sparse_diff a b) /\ forall i, sget (sparse_diff a b) i = sget a i - sget b i.
Proof. exact sparse_diff_spec. Qed.
Print Assumptions C08_sparse_diff.

(* sparse_mul densifies to the pointwise product ... *)
Theorem C08_sparse_mul :
  forall a b k, sorted_gt k a -> sorted_gt k b ->
    sorted_gt k (sparse_mul a b) /\ forall i, sget (sparse_mul a b) i = sget a i * sget b i.
Proof. exact sparse_mul_spec. Qed.
Print Assumptions C08_sparse_mul.

(* ... and sparse_dot_product is the sum of its entries (with the repaired guard: an
   empty operand gives 0), i.e. the dense dot product. *)
Theorem C08_sparse_dot :
  forall a b, sparse_dot_product a b = sumvals (sparse_mul a b).
Proof. exact sparse_dot_is_sum_of_mul. Qed.
Print Assumptions C08_sparse_dot.

(* fast_intersection_size = |supp a /\ supp b| on sorted index lists: the quantity all
   sparse binary metrics (jaccard, dice, matching, kulsinski, rogerstanimoto,
   russellrao, sokalsneath, sokalmichener) are formulas of, together with the two
   support sizes (so tf = |a| - inter, ft = |b| - inter, as in the dense counts). *)
Theorem C08_fast_intersection_size :
  forall l1 l2 k, isorted_gt k l1 -> isorted_gt k l2 ->
    fast_intersection_size l1 l2 = inter_size l1 l2.
Proof. exact fast_intersection_size_spec. Qed.
Print Assumptions C08_fast_intersection_size.

(* non-vacuity: overlapping supports *)
Example C08_example :
  sparse_sum [(0, 2); (3, -1); (5, 4)] [(3, 1); (4, 7)] = [(0, 2); (4, 7); (5, 4)] /\
  sparse_mul [(0, 2); (3, -1); (5, 4)] [(3, 1); (4, 7)] = [(3, -1)] /\
  sparse_dot_product [(0, 2); (3, -1); (5, 4)] [(3, 1); (4, 7)] = -1 /\
  fast_intersection_size [0; 3; 5] [3; 4] = 1.
Proof. vm_compute. repeat split; reflexivity. Qed.
