(* C14 — random-projection trees partition the data and every descent ends in a leaf.
   Model: model/RPTree.v. *)
From Coq Require Import ZArith List Bool Lia Permutation.
From PV Require Import Base ListAux Rng RPTree C14Proofs.
Import ListNotations.
Open Scope Z_scope.

(* Construction (the recursion shared by make_euclidean_tree / make_angular_tree /
   make_bit_tree / make_sparse_*_tree) is structurally recursive on the depth
   bound -- it terminates for every dataset, degenerate ones included -- and for
   ANY split routine that returns a partition of its input, the leaves it
   appends hold each input point exactly once. *)
Theorem C14_build_partitions :
  forall split,
    (forall idxs rng, Permutation (fst (fst (split idxs rng)) ++ snd (fst (split idxs rng))) idxs) ->
    forall depth leaf_size idxs rng t,
      length (lt_children t) = length (lt_indices t) ->
      exists cs ps,
        lt_children (fst (make_tree split depth leaf_size idxs rng t)) = lt_children t ++ cs /\
        lt_indices (fst (make_tree split depth leaf_size idxs rng t)) = lt_indices t ++ ps /\
        length cs = length ps /\ (0 < length cs)%nat /\
        Permutation (leaf_points cs ps) idxs.
Proof. exact make_tree_partitions. Qed.
Print Assumptions C14_build_partitions.

(* The euclidean split (two pivots, hyperplane test with coin flips on the
   plane, all-random fallback when one side is empty) always returns a partition,
   for every dataset and generator state. *)
Theorem C14_euclidean_split_partitions :
  forall data dim idxs rng,
    Permutation (fst (fst (euclidean_split data dim idxs rng)) ++ snd (fst (euclidean_split data dim idxs rng))) idxs.
Proof. exact euclidean_split_partition. Qed.
Print Assumptions C14_euclidean_split_partitions.

(* Routing: in a flat tree whose children array is well formed, EVERY sequence of
   side decisions (every query vector, every coin flip) reaches a leaf within
   n_nodes steps and yields a valid range 0 <= start <= end <= n. *)
Theorem C14_descent_terminates_valid :
  forall children n, children_wf (length children) n children ->
    forall (side : nat -> Z) node fuel,
      (node < length children)%nat -> (length children - node <= fuel)%nat ->
      exists s e, descend fuel children side node = Some (s, e) /\ 0 <= s /\ s <= e /\ e <= n.
Proof. exact descend_terminates. Qed.
Print Assumptions C14_descent_terminates_valid.

(* Checkers run (extracted) on every observed tree.  Flat: accepted => children
   well formed, indices a permutation of 0..n-1, leaves tiling [0,n) in
   pre-order (incl. the first leaf whose start is 0), hence routing is total. *)
Theorem C14_flat_checker_sound : forall n f, flat_chk n f = true -> flat_spec n f.
Proof. exact flat_chk_sound. Qed.
Print Assumptions C14_flat_checker_sound.

Theorem C14_flat_checked_routing :
  forall n f, flat_chk n f = true ->
    forall side, exists s e,
      descend (length (ft_children f)) (ft_children f) side 0 = Some (s, e) /\ 0 <= s /\ s <= e /\ e <= Z.of_nat n.
Proof. exact flat_chk_routing. Qed.

(* Linked (forest) trees: accepted => each data point in exactly one leaf and
   every leaf within leaf_size unless it sits at the depth limit. *)
Theorem C14_linked_checker_sound :
  forall n leaf_size max_depth t, linked_chk n leaf_size max_depth t = true -> linked_spec n leaf_size max_depth t.
Proof. exact linked_chk_sound. Qed.
Print Assumptions C14_linked_checker_sound.

(* non-vacuity: a tree over six collinear points, built, flattened, checked *)
Definition ex_data : list (list Z) := [[0]; [1]; [2]; [3]; [4]; [5]].
Example C14_example :
  let t := fst (make_euclidean_tree ex_data 1 6 2 10 [12345; 678; 91011]) in
  linked_chk 6 2 10 t = true /\
  match convert_tree_format t 6 with Some f => flat_chk 6 f | None => false end = true.
Proof. vm_compute. split; reflexivity. Qed.
