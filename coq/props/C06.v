(* C06 — serialisation round-trips preserve the index exactly.
   Model of __getstate__/__setstate__ (model/Pickle.v): for every state whose metric binding
   is the one __init__ derives, loading the saved dict yields a state equal to the prepared
   original on every field a query reads; saving leaves the original prepared and is
   idempotent; a loaded copy can be saved again.  The pinned __setstate__, which re-derived
   the dense binding for CSR indexes, is refuted.  Byte-level fidelity of numpy/numba
   pickling is runtime behaviour: exercised by the harness (in-process and in a fresh
   interpreter), not proved. *)
From Coq Require Import ZArith List Bool.
From PV Require Import Pickle C06Proofs.
Import ListNotations.

Theorem C06_roundtrip : forall mk s, consistent s ->
  query_view (setstate false (snd (getstate mk s))) = query_view (pprepare mk s) /\
  fst (getstate mk s) = pprepare mk s.
Proof. exact roundtrip_equals_prepared_original. Qed.
Print Assumptions C06_roundtrip.

Theorem C06_constructed_is_consistent : forall sp m n pl, consistent (constructed sp m n pl).
Proof. exact constructed_consistent. Qed.
Theorem C06_loaded_is_consistent : forall k, consistent (setstate false k).
Proof. exact loaded_consistent. Qed.
Theorem C06_save_idempotent : forall mk s, getstate mk (fst (getstate mk s)) = getstate mk s.
Proof. exact getstate_idempotent. Qed.
Print Assumptions C06_save_idempotent.

Theorem C06_rebinding_agrees : forall sparse m, load_binding false sparse m = init_binding sparse m.
Proof. reflexivity. Qed.
Theorem C06_pinned_sparse_rebinding_refuted :
  exists m, sparse_binding m = BSparseFast /\ load_binding true true m = BDenseFast.
Proof. exact pinned_sparse_rebinding_refuted. Qed.

Example C06_example :
  let m := {| in_named := true; in_fast := true; in_sparse_named := true; in_sparse_fast := false; is_callable := false |} in
  let s := constructed true m 1 [7; 8]%Z in
  p_binding (setstate false (snd (getstate (fun _ => []) s))) = BSparseNamed /\ p_partial (setstate false (snd (getstate (fun _ => []) s))) = true.
Proof. split; reflexivity. Qed.
