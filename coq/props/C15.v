(* C15 — diversification removes exactly the long edges of triangles.
   Model: model/Diversify.v (pynndescent_.diversify / sparse.diversify rows,
   pynndescent_.diversify_csr / sparse.diversify_csr rows). *)
From Coq Require Import ZArith List Bool Lia.
From PV Require Import Base ListAux Rng Diversify C15Proofs C15Wiring.
Import ListNotations.
Open Scope Z_scope.

(* The specification in the property's own words: processing a point's
   neighbours in ascending distance, a neighbour is dropped iff some EARLIER,
   KEPT neighbour at non-zero distance (> eps) is nearer to it than the point is;
   the first (nearest) neighbour is always kept. *)
Theorem C15_greedy_specification :
  forall dm npts eps cs, greedy_spec dm npts eps cs (spec_flags dm npts eps cs).
Proof. exact spec_flags_greedy. Qed.
Print Assumptions C15_greedy_specification.

Theorem C15_nearest_always_kept :
  forall dm npts eps c0 rest, nth 0 (spec_flags dm npts eps (c0 :: rest)) false = true.
Proof. exact spec_first_kept. Qed.

(* Forward diversification (dense and sparse rows), probability 1, any storage
   with -1 padding: the rewritten row is exactly the kept candidates of the
   specification (computed on the entries before the first -1) followed by
   (-1, inf) padding.  Hypothesis: the generator never returns a value >= the
   probability (see C15_tau_rand_can_return_one). *)
Theorem C15_forward_row :
  forall dm npts draw eps prob inf,
    (forall s, (fst (draw s) <? prob) = true) ->
    forall inds ds rng, length inds = length ds -> (0 < length inds)%nat ->
    let cs := combine inds ds in
    let good := nth 0 cs (0, 0) :: good_prefix (tl cs) in
    let kept := select (spec_flags dm npts eps good) good in
    let '(ri, rd, _) := diversify_row dm npts draw eps prob inf inds ds rng in
    ri = map fst kept ++ repeat (-1) (length inds - length kept) /\
    rd = map snd kept ++ repeat inf (length inds - length kept).
Proof. intros dm npts draw eps prob inf Hd inds ds rng. exact (diversify_row_spec dm npts draw eps prob inf Hd inds ds rng). Qed.
Print Assumptions C15_forward_row.

(* Reverse diversification of one CSR row (sparse.py and the repaired dense code),
   for ANY sorting permutation [order] (np.argsort is unstable: ties in any
   order), any storage order of the row: stored position order[t] is zeroed iff
   the specification drops the t-th candidate in ascending order; everything
   else is untouched. *)
Theorem C15_reverse_row :
  forall dm npts draw eps prob,
    (forall s, (fst (draw s) <? prob) = true) ->
    forall cur_i cur_d order rng,
    length cur_i = length cur_d -> NoDup (map zidx order) ->
    (forall o, In o order -> (zidx o < length cur_d)%nat) ->
    let flags := spec_flags dm npts eps (map (candof cur_i cur_d) order) in
    let res := fst (diversify_csr_row dm npts draw eps prob true cur_i cur_d order rng) in
    length res = length cur_d /\
    (forall t, (t < length order)%nat ->
       getZ res (zidx (nth t order 0)) = if nth t flags true then getZ cur_d (zidx (nth t order 0)) else 0) /\
    (forall x, (x < length cur_d)%nat -> ~ In x (map zidx order) -> getZ res x = getZ cur_d x).
Proof. intros dm npts draw eps prob Hd cur_i cur_d order rng. exact (diversify_csr_row_spec dm npts draw eps prob Hd cur_i cur_d order rng). Qed.
Print Assumptions C15_reverse_row.

(* Both paths are functions of the same flag list [spec_flags]: forward and
   reverse, dense and sparse code make identical decisions on the same
   candidates (C15_forward_row and C15_reverse_row share [spec_flags]). *)

(* With probability 0 an occluded candidate is never dropped. *)
Theorem C15_probability_zero_keeps :
  forall dm npts eps (draw0 : list Z -> Z * list Z),
    (forall s, 0 <= fst (draw0 s)) ->
    forall new cj dj rng, fst (fwd_scan dm npts draw0 eps 0 new cj dj rng) = true.
Proof. exact fwd_scan_prob0. Qed.

(* ---- the pinned dense diversify_csr (compares with current_indices[k], k a
   position in sorted order) does NOT implement the specification: node 0 on the
   line 0,1,2,10 with its CSR row stored in descending order. *)
Definition ex_pos : list Z := [0; 1; 2; 10].
Definition ex_dm (a b : nat) : Z := let d := getZ ex_pos a - getZ ex_pos b in d * d.
Definition draw_zero (s : list Z) : Z * list Z := (0, s).

Theorem C15_pinned_dense_csr_refuted :
  fst (diversify_csr_row ex_dm 4 draw_zero 0 100 false [3; 2; 1] [100; 4; 1] [2; 1; 0] [])
  <> fst (diversify_csr_row ex_dm 4 draw_zero 0 100 true [3; 2; 1] [100; 4; 1] [2; 1; 0] []).
Proof. vm_compute. intros H; discriminate H. Qed.
Print Assumptions C15_pinned_dense_csr_refuted.

Example C15_example_reverse_is_spec :
  fst (diversify_csr_row ex_dm 4 draw_zero 0 100 true [3; 2; 1] [100; 4; 1] [2; 1; 0] []) = [0; 0; 1]
  /\ spec_flags ex_dm 4 0 [(1, 1); (2, 4); (3, 100)] = [true; false; false].
Proof. vm_compute. split; reflexivity. Qed.

(* the generator hypothesis is not vacuous-proof: tau_rand CAN return exactly
   1.0f (key 1065353216), so with prune_probability = 1.0 the test
   tau_rand < 1.0 can fail on such a state *)
Example C15_tau_rand_can_return_one :
  fst (tau_rand [524286; 0; 0]) = 1065353216.
Proof. vm_compute. reflexivity. Qed.

(* Index level (NNDescent._init_search_graph): the reverse pass as coded runs over a transposed VIEW, i.e. over
   the forward rows again, and removes nothing from the transposed rows (model: proofs/C15Wiring.v).  On four
   points of the plane the search graph as coded contains the edge 1 -> 0 which the property's rule removes
   (and which the intended wiring - the same greedy rule over the transposed rows - does remove), while the
   forward edge 0 -> 1 is rightly kept.  The witness is replayed on the real index by the check on every run
   (known finding, KNOWN_FINDINGS.jsonl / DESIGN 11.2). *)
Theorem C15_index_reverse_pass_refuted :
  edge_intended wit_dm 4 0 wit_knn 1 0 = false /\ edge_as_coded wit_dm 4 0 wit_knn 1 0 = true /\
  edge_intended wit_dm 4 0 wit_knn 0 1 = true.
Proof. exact index_reverse_pass_refuted. Qed.
Print Assumptions C15_index_reverse_pass_refuted.

(* what the intended reverse pass keeps obeys the property's rule for every graph and every point *)
Theorem C15_intended_reverse_rows_greedy :
  forall dm npts eps g i,
    greedy_spec dm npts eps (sort_w (incoming g i)) (spec_flags dm npts eps (sort_w (incoming g i))).
Proof. exact reverse_intended_is_greedy. Qed.
