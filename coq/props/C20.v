(* C20 — connect_graph terminates and returns a connected supergraph.
   Proved here: (1) utils.rejection_sample, whenever it returns, returns pairwise distinct
   in-range samples; (2) it can NEVER return when more samples are requested than the pool
   holds (the defect of the pinned tree: a component smaller than search_size), for every
   generator state and every amount of fuel; (3) adding, for every pair of components, an
   edge between a vertex of one and a vertex of the other makes the graph connected;
   (4) soundness of the spanning-tree certificate and of the symmetry check that are
   evaluated, extracted, on every result connect_graph produces in the harness.
   (5) termination of the alternating loop of find_component_connection_edge as repaired (end of
   this file), with the restricted searches and the candidate-set bookkeeping as an oracle.
   NOT proved: that each restricted search itself returns (a bounded graph traversal; observed
   under a watchdog per call), the true-distance clause (validated against float64 references). *)
From Coq Require Import ZArith List Bool Lia Relations.
From PV Require Import Base Rng Connect C20Proofs.
Import ListNotations.
Open Scope Z_scope.

Theorem C20_rejection_sample_distinct :
  forall n fuel pool rng res rng',
    0 < pool ->
    rejection_sample fuel n pool [] rng = Some (res, rng') ->
    NoDup res /\ (forall x, In x res -> 0 <= x < pool) /\ length res = n.
Proof.
  intros n fuel pool rng res rng' Hp H.
  apply (rejection_sample_distinct n fuel pool [] rng res rng' Hp (NoDup_nil Z)) in H.
  - exact H.
  - intros x [].
Qed.
Print Assumptions C20_rejection_sample_distinct.

Theorem C20_rejection_sample_needs_pool :
  forall n fuel pool rng,
    0 < pool -> pool < Z.of_nat n ->
    rejection_sample fuel n pool [] rng = None.
Proof.
  intros n fuel pool rng Hp Hn.
  apply rejection_sample_diverges; auto.
  - constructor.
  - intros x [].
Qed.
Print Assumptions C20_rejection_sample_needs_pool.

Theorem C20_bridging_every_pair_connects :
  forall (V : Type) (E E' : V -> V -> Prop),
    (forall x y, E x y -> E' x y) ->
    (forall x y, reach V E x y \/
       exists x' y', reach V E x x' /\ reach V E y y' /\ (E' x' y' \/ E' y' x')) ->
    forall x y, reach V E' x y.
Proof. exact connect_all_pairs. Qed.
Print Assumptions C20_bridging_every_pair_connects.

Theorem C20_connectivity_certificate_sound :
  forall edges n parent depth,
    conn_cert_chk n edges parent depth = true ->
    forall v, (v < n)%nat -> clos_refl_sym_trans nat (Er edges) v 0%nat.
Proof. exact conn_cert_sound. Qed.
Print Assumptions C20_connectivity_certificate_sound.

Theorem C20_symmetry_check_sound :
  forall edges, sym_chk edges = true -> forall u v, Er edges u v -> Er edges v u.
Proof. exact sym_chk_sound. Qed.
Print Assumptions C20_symmetry_check_sound.

(* non-vacuity *)
Example C20_sample_runs :
  exists res rng', rejection_sample 50 3 5 [] [123456; 654321; 111111] = Some (res, rng') /\ length res = 3%nat.
Proof. vm_compute. eexists. eexists. split; reflexivity. Qed.
Example C20_sample_diverges : rejection_sample 200 4 3 [] [123456; 654321; 111111] = None.
Proof. vm_compute. reflexivity. Qed.
Example C20_cert_example :
  conn_cert_chk 3 [(0,1);(1,0);(1,2);(2,1)]%nat [0;0;1]%nat [0;1;2]%nat = true /\
  conn_cert_chk 3 [(0,1);(1,0)]%nat [0;0;1]%nat [0;1;2]%nat = false.
Proof. vm_compute. split; reflexivity. Qed.

(* ---- termination of the alternating restricted searches (added after the repair) ----
   The loop of find_component_connection_edge, with the searches and the candidate-set bookkeeping
   as an arbitrary oracle that only ever reports distances from the finite set S of distances
   between the two components, returns after at most 2 * |{d in S : d < start}| + 3 searches:
   the best distance can only decrease, and two searches in a row without improvement end the
   loop.  (Before the repair the loop condition was `changed[0] or changed[1]` alone, which an
   oracle that keeps swapping tied candidates holds true for ever: C20_unrepaired_loop_diverges.) *)
Theorem C20_alternating_loop_terminates :
  forall (S : list Z) (oracle : nat -> list Z * bool),
    (forall i d, In d (fst (oracle i)) -> In d S) ->
    forall fuel best, (2 * count_ltL S best + 2 < fuel)%nat ->
      alt_loop oracle fuel 0 best 0 true <> None.
Proof.
  intros S oracle H fuel best Hf. apply (alt_loop_terminates S oracle H); lia.
Qed.
Print Assumptions C20_alternating_loop_terminates.

(* the unrepaired loop (no stalled counter = the counter never reaches 2) with an oracle that reports
   no improvement and keeps the candidate sets changing exhausts every amount of fuel *)
Fixpoint old_loop (oracle : nat -> list Z * bool) (fuel : nat) (i : nat) (best : Z) (changed : bool) : option (Z * nat) :=
  if negb changed then Some (best, i)
  else match fuel with
       | O => None
       | S f => let '(ds, ch') := oracle i in old_loop oracle f (S i) (fold_left Z.min ds best) ch'
       end.
Theorem C20_unrepaired_loop_diverges : forall fuel i best, old_loop (fun _ => ([best], true)) fuel i best true = None.
Proof.
  induction fuel as [|f IH]; intros i best; cbn [old_loop negb]; [reflexivity|].
  cbn [fold_left]. rewrite Z.min_id. apply IH.
Qed.

Example C20_loop_example :
  alt_loop (fun i => (if Nat.ltb i 2 then [9 - Z.of_nat i] else [8], true)) 50 0 100 0 true = Some (8, 4%nat).
Proof. vm_compute. reflexivity. Qed.
