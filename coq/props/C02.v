(* C02 — query answers are true, in the caller's row order, and never fabricated.
   Model: model/Search.v (one query of the search closure, dense or sparse: the two
   differ only in how d(v, query) is computed), deheap_sort, and the translation
   through vertex_order. *)
From Coq Require Import ZArith List Bool Lia Permutation.
From PV Require Import Base Heap Rng Search ListAux HeapProofs HeapTopK HeapArrays HeapSort C01Proofs C02Proofs.
Import ListNotations.
Open Scope Z_scope.

(* For every search graph with in-range adjacency, every list of distinct in-range
   leaf candidates, every generator state, every k >= 1, n_neighbors and epsilon
   (scale), whenever the search returns, the sorted answer has k slots; every
   filled slot names a point 0 <= v < n with exactly d(v, query) < inf; filled
   slots are pairwise distinct (this is the proof of the code's comment "indices
   are guaranteed different", random seeds included: it hinges on the visited
   guard); distances ascend; unfilled slots are (-1, +inf) and form a suffix. *)
Theorem C02_answer_sound :
  forall (dq : nat -> Z) (n k : nat) (inf : Z) (indptr indices : list Z),
    (0 < k)%nat -> (0 < n)%nat ->
    (forall c, In c indices -> 0 <= c < Z.of_nat n) ->
    forall n_neighbors scale cands rng ps ids rng',
      NoDup cands -> (forall c, In c cands -> 0 <= c < Z.of_nat n) ->
      search_one dq n indptr indices inf k n_neighbors scale cands rng = Some (ps, ids, rng') ->
      exists ids' ds', deheap_sort_row ids ps = Some (ids', ds') /\
                       RowOut (fun _ v => dq v) inf n k 0 ids' ds'.
Proof.
  intros dq n k inf indptr indices Hk Hn Hr n_neighbors scale cands rng ps ids rng'.
  exact (answer_sound dq n k inf indptr indices Hk Hn Hr n_neighbors scale cands rng ps ids rng').
Qed.
Print Assumptions C02_answer_sound.

(* Translation: a filled slot v is reported as vertex_order[v]; since the index
   stores raw_data[i] = caller_data[vertex_order[i]], the reported distance is the
   metric between the query and THAT caller row.  An unfilled slot stays -1 with
   the repaired translation ... *)
Theorem C02_translation_filled :
  forall keep vorder idx, 0 <= idx -> translate keep vorder idx = getZ vorder (zidx idx).
Proof. exact translate_filled. Qed.

Theorem C02_unfilled_slot_stays_minus_one : forall vorder, translate true vorder (-1) = -1.
Proof. exact translate_unfilled_kept. Qed.
Print Assumptions C02_unfilled_slot_stays_minus_one.

(* ... whereas plain fancy indexing (the pinned code) turned it into the number of
   a real data point: *)
Theorem C02_fancy_indexing_fabricates_refuted :
  exists vorder, translate false vorder (-1) <> -1 /\ In (translate false vorder (-1)) vorder.
Proof. exists [4; 2; 0; 3; 1]. vm_compute. split; [discriminate|auto 10]. Qed.

(* non-vacuity: a 5-point path graph, query nearest to vertex 2, k = 3, epsilon 0.25 *)
Definition ex_dq (v : nat) : Z := nth v [1082130432; 1065353216; 0; 1065353216; 1082130432] 0.  (* 4,1,0,1,4 as float32 keys *)
Example C02_example :
  search_one ex_dq 5 [0; 1; 3; 5; 7; 8] [1; 0; 2; 1; 3; 2; 4; 3] 2139095040 3 2 1067450368 [2] [1; 2; 3]
  = Some ([1065353216; 0; 1065353216], [3; 2; 1], [0; 0; 0]).
Proof. vm_compute. reflexivity. Qed.

(* ---- the search always returns (added).  C02_answer_sound says "whenever the search returns"; this
   removes the condition: the visited table lets every vertex enter the seed set at most once and
   every round of the main loop removes one seed, so the loop ends within n + 1 rounds - for every
   search graph with in-range adjacency, every generator state, every k >= 1, n_neighbors >= 1 and
   epsilon, and every list of distinct in-range leaf candidates (the empty list included). ---- *)
From PV Require Import C02Term.
Theorem C02_search_always_returns :
  forall (dq : nat -> Z) (n : nat) (indptr indices : list Z),
    (0 < n)%nat -> (forall c, In c indices -> 0 <= c < Z.of_nat n) ->
    forall inf k n_neighbors scale cands rng,
      (0 < k)%nat -> (0 < n_neighbors)%nat ->
      NoDup cands -> (forall c, In c cands -> 0 <= c < Z.of_nat n) ->
      search_one dq n indptr indices inf k n_neighbors scale cands rng <> None.
Proof. exact search_one_returns. Qed.
Print Assumptions C02_search_always_returns.
