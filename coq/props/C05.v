(* C05 — seeded runs are bit-reproducible under every thread schedule.
   Proved: (1) the generic row-ownership theorem: if every row is written by one thread,
   EVERY interleaving of the threads' atomic row operations yields the rows and the
   reduction counter of the sequential execution; (2) its instantiation to
   utils.apply_graph_updates_low_memory (thread n handles rows r with r mod T = n): every
   interleaving yields exactly the graph and change count of the sequential model that
   the correspondence check ties to the compiled kernel; (3) diversification rows are
   independent (private per-row generator state, shared state untouched); (4) a query()
   call returns the same answers whatever calls preceded it and leaves the generator
   state alone.
   (5) the same for utils.new_build_candidates (end of this file).
   NOT proved: the high-memory update variant is sequential in the code (no prange) and needs
   no schedule argument; leaf/graph update GENERATION writes private per-iteration lists
   (validated by correspondence and repeated runs); numba's prange scheduling is the
   interleaving model's assumption (atomic per-row operations). *)
From Coq Require Import ZArith List Bool Lia.
From PV Require Import Base Heap NND Par Repro Diversify C05Proofs.
Import ListNotations.
Open Scope Z_scope.

Theorem C05_row_ownership_schedule_independent :
  forall (A : Type) (dA : A) (owner : nat -> nat) (ts : list (list (op A))) (L : list (op A)) rows c,
    merge A ts L -> owned A owner ts ->
    (forall n o, In o (nth n ts []) -> (fst o < length rows)%nat) ->
    run A dA L (rows, c) = run A dA (concat ts) (rows, c).
Proof. exact schedule_independent. Qed.
Print Assumptions C05_row_ownership_schedule_independent.

Theorem C05_apply_updates_schedule_independent :
  forall ups n T g L,
    (0 < T)%nat -> wf g n -> ups_ok n ups ->
    merge row3 (threads T ups) L ->
    run row3 d3 L (rows_of g, 0)
    = (rows_of (fst (apply_graph_updates_low_memory g ups T)), snd (apply_graph_updates_low_memory g ups T)).
Proof. exact apply_low_schedule_independent. Qed.
Print Assumptions C05_apply_updates_schedule_independent.

Theorem C05_diversify_rowwise :
  forall dm npts draw eps prob inf inds ds rng i,
    length inds = length ds -> (i < length inds)%nat ->
    let '(oi, od, rng') := diversify dm npts draw eps prob inf inds ds rng in
    rng' = rng /\
    (nth i oi [], nth i od []) =
      (let '(ri, rd, _) := diversify_row dm npts draw eps prob inf (nth i inds []) (nth i ds []) (row_rng rng i) in (ri, rd)).
Proof. exact diversify_rowwise. Qed.
Print Assumptions C05_diversify_rowwise.

Theorem C05_query_independent_of_history :
  forall (Q A : Type) (answer : list Z -> Q -> A * list Z) calls st dirty qs,
    snd (query_call Q A answer dirty (history Q A answer st calls) qs) = snd (query_call Q A answer [] st qs) /\
    q_rng (fst (query_call Q A answer dirty (history Q A answer st calls) qs)) = q_rng st.
Proof. exact query_independent_of_history. Qed.
Print Assumptions C05_query_independent_of_history.

(* non-vacuity: two threads, three rows, an interleaving different from the sequential order *)
Example C05_example :
  let add (k : Z) : op Z := (O, fun a => (a + k, 1)) in
  let t0 : list (op Z) := [(0%nat, fun a => (a + 1, 1)); (2%nat, fun a => (a * 2, 0))] in
  let t1 : list (op Z) := [(1%nat, fun a => (a + 5, 1))] in
  run Z 0 [nth 0 t0 (add 0); nth 0 t1 (add 0); nth 1 t0 (add 0)] ([10; 20; 30], 0) = run Z 0 (t0 ++ t1) ([10; 20; 30], 0).
Proof. reflexivity. Qed.

(* ---- candidate building (added): every interleaving of the prange threads of
   utils.new_build_candidates yields the candidate arrays of the sequential model.  Thread t
   owns the candidate rows r with r mod T = t (forward pushes guarded by i % n_threads == n,
   reverse pushes by idx % n_threads == n) and draws every priority from its own stream
   rng_state + t, so neither the rows nor the random numbers depend on the schedule. ---- *)
From PV Require Import C05Nbc.

Theorem C05_build_candidates_schedule_independent :
  forall T g rng0 n c0 L,
    (0 < T)%nat -> graph_ok g n -> cwf c0 n ->
    merge crow4 (nbc_threads T g rng0) L ->
    run crow4 dc4 L (crows c0, 0)
    = (crows (fold_left (nbc_thread (Z.of_nat T) g rng0) (map Z.of_nat (seq 0 T)) c0), 0).
Proof. exact nbc_schedule_independent. Qed.
Print Assumptions C05_build_candidates_schedule_independent.

(* the result of the low-memory update kernel does not even depend on HOW MANY threads share the rows *)
From PV Require Import C05Threads.
Theorem C05_apply_updates_thread_count_irrelevant :
  forall ups n T g, (0 < T)%nat -> wf g n -> ups_ok n ups ->
    apply_graph_updates_low_memory g ups T = apply_graph_updates_low_memory g ups 1.
Proof. exact apply_low_any_thread_count. Qed.
Print Assumptions C05_apply_updates_thread_count_irrelevant.
