(* C13 — neighbour lists only ever improve.
   "For every point and every rank j, the j-th smallest distance ... is no
   larger than it was before" is stated in count form: for every threshold t
   the number of entries of the row with distance <= t never decreases
   ([gle]); C13_count_form_is_rank_form shows this is the same as the rank-wise
   statement on the sorted rows. *)
From Coq Require Import ZArith List Bool Lia Permutation.
From PV Require Import Base Heap Rng NND ListAux HeapProofs HeapTopK HeapArrays HeapSort NNDProofs C13Proofs.
Import ListNotations.
Open Scope Z_scope.

Theorem C13_push_never_worse :
  forall checked l x t, (0 < length l)%nat -> heapP l ->
    (count_le t l <= count_le t (snd (pushz checked l x)))%nat.
Proof. exact push_count_le_mono. Qed.
Print Assumptions C13_push_never_worse.

Theorem C13_count_form_is_rank_form :
  forall a b : list Z, length a = length b ->
    (forall i j, (i <= j < length a)%nat -> nth i a 0 <= nth j a 0) ->
    (forall i j, (i <= j < length b)%nat -> nth i b 0 <= nth j b 0) ->
    (forall t : Z, (length (filter (fun z => (z <=? t)%Z) a) <= length (filter (fun z => (z <=? t)%Z) b))%nat) ->
    forall j, (j < length a)%nat -> nth j b 0 <= nth j a 0.
Proof. exact sorted_count_rank. Qed.
Print Assumptions C13_count_form_is_rank_form.

Section C13.
  Variable dm : nat -> nat -> Z.
  Variable inf : Z.
  Variables n k : nat.
  Hypothesis Hk : (0 < k)%nat.

  (* Good g0 g: g has n x k max-heap rows and every row of g is rank-wise at least
     as good as the same row of g0.  No assumption on the distance values: a
     user-supplied init_dist is covered. *)
  Theorem C13_round_low :
    forall g0 g ups T, Good n k g0 g -> Forall (Forall (upd_inrange n)) ups ->
      Good n k g0 (fst (apply_graph_updates_low_memory g ups T)).
  Proof. intros; eapply apply_low_improves; eauto. Qed.

  Theorem C13_round_high :
    forall b g0 g ups ing, Good n k g0 g -> Forall (Forall (upd_inrange n)) ups ->
      Good n k g0 (fst (fst (apply_graph_updates_high_memory b g ups ing))).
  Proof. intros; eapply apply_high_improves; eauto. Qed.

  Theorem C13_init_random :
    forall g0 g rng, Good n k g0 g -> Good n k g0 (fst (init_random dm k n g rng)).
  Proof. intros; eapply init_random_improves; eauto. Qed.

  Theorem C13_leaf_updates :
    forall g0 g ups, Good n k g0 g -> Forall (Forall (upd_inrange n)) ups ->
      Good n k g0 (fold_left (fun g ul => fold_left apply_both ul g) ups g).
  Proof. intros; eapply init_rp_tree_improves; eauto. Qed.

  (* the final sort keeps the multiset of distances of every row *)
  Theorem C13_sort_keeps_profile :
    forall t l l', Permutation l l' -> count_le t l = count_le t l'.
  Proof. intros; eapply count_le_perm; eauto. Qed.
End C13.
Print Assumptions C13_round_low.
Print Assumptions C13_round_high.
Print Assumptions C13_init_random.
Print Assumptions C13_leaf_updates.

(* non-vacuity: a 3-slot row (30,20,10) receives a better candidate: every rank
   improves or stays *)
Example C13_example :
  let l := [(30, 1, 0); (20, 2, 0); (10, 3, 0)] in
  heapP l /\ map key (snd (pushz true l (15, 9, 1))) = [20; 15; 10].
Proof.
  split; [|vm_compute; reflexivity].
  intros j c [->| ->] Hc; cbn in Hc; destruct j as [|[|j]]; cbn; lia.
Qed.

(* ---- the whole loop (added): however many rounds NN-descent runs, in either memory mode, with any
   thread count, threshold and generator state, every row of the result is rank-wise at least as
   good as the same row of the heap the loop started from ---- *)
From PV Require Import C01Proofs C13Loop.
Theorem C13_nn_descent_never_worse :
  forall (dm : nat -> nat -> Z) (inf : Z) (n k maxc : nat),
    (0 < k)%nat -> (0 < maxc)%nat -> (forall a b, dm a b = dm b a) ->
    forall b iters g rng T thr_c, GWF dm inf n k g ->
      Good n k g (nnd_low inf dm iters g maxc rng T thr_c) /\
      Good n k g (nnd_high inf dm b iters g (g_ind g) maxc rng T thr_c).
Proof. exact nn_descent_rounds_never_worse. Qed.
Print Assumptions C13_nn_descent_never_worse.
