(* C16 — the search graph is a bounded-degree subgraph of the neighbour graph.
   (1) theorems about the model of degree_prune_internal (model/SearchGraph.v);
   (2) soundness of the checker that is run, extracted, on the search graph each
       real index produced (reflective route: the producer _init_search_graph is a
       composition of scipy operations and is validated per run, not verified). *)
From Coq Require Import ZArith List Bool Lia Permutation.
From PV Require Import Base ListAux SearchGraph C16Proofs.
Import ListNotations.
Open Scope Z_scope.

(* Degree bound, in the property's wording: after pruning a row longer than
   max_degree, for any kept length m, at most max_degree kept edges are strictly
   shorter than m — so no point has more than max_degree out-edges, edges exactly
   as long as the longest kept one excepted. *)
Theorem C16_prune_degree_bound :
  forall data maxd, (forall x, In x data -> 0 < x) ->
    forall m, In m (degree_prune_row data maxd) -> m <> 0 -> (maxd < length data)%nat ->
      (length (filter (fun x => (negb (x =? 0) && (x <? m))%Z) (degree_prune_row data maxd)) <= maxd)%nat.
Proof. exact prune_degree_bound. Qed.
Print Assumptions C16_prune_degree_bound.

Theorem C16_prune_keeps_shortest :
  forall data maxd x i, (i < length data)%nat -> getZ data i = x -> (forall y, In y data -> x <= y) ->
    getZ (degree_prune_row data maxd) i = x.
Proof. exact prune_keeps_minimum. Qed.
Print Assumptions C16_prune_keeps_shortest.

Theorem C16_prune_short_rows_untouched :
  forall data maxd, (length data <= maxd)%nat -> degree_prune_row data maxd = data.
Proof. exact prune_short. Qed.

Theorem C16_prune_only_removes :
  forall data maxd i, getZ (degree_prune_row data maxd) i = getZ data i \/ getZ (degree_prune_row data maxd) i = 0.
Proof. exact prune_only_zeroes. Qed.

(* Whenever the extracted checker accepts an observed search graph, that graph is
   square over all n points, has no self-loops, every edge joins two points of
   which at least one lists the other in the neighbour graph, every row obeys
   the degree bound up to ties with its longest edge, and every point that lists
   a neighbour keeps an edge at least as short as its nearest listed one. *)
Theorem C16_checker_sound :
  forall n knn_i knn_d sg vorder maxdeg,
    search_graph_chk n knn_i knn_d sg vorder maxdeg = true -> SG_spec n knn_i knn_d sg vorder maxdeg.
Proof. exact search_graph_chk_sound. Qed.
Print Assumptions C16_checker_sound.

(* the row of lengths 1..6 with max_degree 3: the cut is the 4th smallest; four
   edges stay, three of them strictly shorter than the longest kept one *)
Example C16_example_prune :
  degree_prune_row [3; 6; 1; 5; 2; 4] 3 = [3; 0; 1; 0; 2; 4].
Proof. vm_compute. reflexivity. Qed.

(* the checker accepts a tiny genuine instance and rejects a self-loop *)
Example C16_example_checker :
  search_graph_chk 3 [[0; 1]; [1; 0]; [2; 1]] [[0; 5]; [0; 5]; [0; 9]] [[1]; [0; 2]; [1]] [0; 1; 2] 3 = true /\
  search_graph_chk 3 [[0; 1]; [1; 0]; [2; 1]] [[0; 5]; [0; 5]; [0; 9]] [[0; 1]; [0; 2]; [1]] [0; 1; 2] 3 = false.
Proof. vm_compute. split; reflexivity. Qed.
