(* C04 — the index stays truthful over any history of prepare / update / compress.
   Proved: the data bookkeeping.  For EVERY finite history of operations (with the tree
   order of each rebuild an arbitrary permutation), the stored rows are the logical dataset
   (original rows, replacements applied, appended rows in order) seen through the current
   _vertex_order, and the neighbour graph has one row per logical point; invalidation before
   the re-run of NN-descent leaves no entry in a replaced row and no reference to a replaced
   row, and leaves every other entry exactly as stored.
   NOT proved here: that NN-descent re-run from the invalidated graph yields true distances
   (C01's theorems about the kernels; validated per history against float64 references). *)
From Coq Require Import ZArith List Bool Arith Lia.
From PV Require Import Base Lifecycle C04Proofs.
Import ListNotations.
Open Scope Z_scope.

Theorem C04_history_invariant : forall ops data,
  ok_run (linit data) data ops ->
  LInv (fst (lfinal (linit data) data ops)) (snd (lfinal (linit data) data ops)).
Proof. intros ops data H. apply history_invariant; [apply linit_inv|exact H]. Qed.
Print Assumptions C04_history_invariant.

(* reading of the invariant: storage row j is logical row _vertex_order[j]; the graph has one row per logical point *)
Theorem C04_storage_is_logical_through_vertex_order : forall s l p j,
  LInv s l -> vorder s = Some p -> (j < length p)%nat -> nth j (raw s) (-1) = nth (nth j p O) l (-1).
Proof. exact LInv_rows. Qed.
Print Assumptions C04_storage_is_logical_through_vertex_order.

Theorem C04_graph_rows : forall s l, LInv s l -> has_graph s = true -> graph_rows s = length l.
Proof. intros s l [_ H]. exact H. Qed.

(* argsort undoes the tree order *)
Theorem C04_argsort_undoes_order : forall l p, perm_ok p (length l) -> gather (gather l p) (argsort_perm p) = l.
Proof. exact gather_argsort. Qed.
Print Assumptions C04_argsort_undoes_order.

(* no trace of replaced rows in the graph NN-descent restarts from *)
Theorem C04_invalidation : forall inf U g i j e,
  (i < length g)%nat -> (j < length (nth i g []))%nat ->
  nth j (nth i (invalidate inf U g) []) (dead inf) = e -> fst e <> -1 ->
  ~ In i U /\ memz (fst e) U = false /\ e = nth j (nth i g []) (dead inf).
Proof. exact invalidate_spec. Qed.
Print Assumptions C04_invalidation.
Theorem C04_replaced_rows_emptied : forall inf U g i j,
  (i < length g)%nat -> In i U -> (j < length (nth i g []))%nat ->
  nth j (nth i (invalidate inf U g) []) (dead inf) = dead inf.
Proof. exact invalidate_replaced_rows. Qed.

(* non-vacuity: prepare, replace row 1 and append, on a 4-row dataset *)
Example C04_example :
  map (fun r => (raw (fst r), vorder (fst r), graph_rows (fst r)))
      (lrun (linit [10; 11; 12; 13]) [LPrepare [2; 0; 3; 1]%nat; LUpdate [14] [1%nat] [21] [4; 2; 0; 3; 1]%nat])
  = [([12; 10; 13; 11], Some [2; 0; 3; 1]%nat, 4%nat); ([14; 12; 10; 13; 21], Some [4; 2; 0; 3; 1]%nat, 5%nat)].
Proof. reflexivity. Qed.
Example C04_example_ok : ok_run (linit [10; 11; 12; 13]) [10; 11; 12; 13] [LPrepare [2; 0; 3; 1]%nat; LUpdate [14] [1%nat] [21] [4; 2; 0; 3; 1]%nat].
Proof.
  cbn. repeat split; intros; try reflexivity.
  - destruct k as [|[|[|[|k]]]]; cbn; auto 6; lia.
  - destruct k as [|[|[|[|[|k]]]]]; cbn; auto 7; lia.
Qed.

(* ---- composition with C01 (added): the graph NN-descent is restarted from is true for the NEW data ----
   If the stored (sorted) neighbour graph is true for the old distance table dm, and the new table dm'
   agrees with dm on every pair of points that were not replaced, then the heap update() builds -
   make_heap, init_from_neighbor_graph of the INVALIDATED graph, the leaves of a fresh forest,
   init_random - satisfies C01's invariant for dm'.  C01_nn_descent_invariant (init = Some heap) then
   carries the invariant through the whole re-run, for every generator state and both memory modes:
   every distance stored after update() is a true distance of the logical dataset. *)
From PV Require Import C01Proofs C04Compose.

Theorem C04_invalidated_graph_true_for_new_data :
  forall (dm dm' : nat -> nat -> Z) (inf : Z) (n : nat) (U : list nat),
    (forall a b, ~ In a U -> ~ In b U -> dm' a b = dm a b) ->
    forall g, rows_true inf n dm g -> rows_true inf n dm' (invalidate inf U g).
Proof. intros dm dm' inf n U H g Hg. eapply (invalidate_true_for_new_table dm dm'); eauto. Qed.
Print Assumptions C04_invalidated_graph_true_for_new_data.

Theorem C04_update_restarts_from_a_true_graph :
  forall (dm dm' : nat -> nat -> Z) (inf : Z) (n k : nat) (U : list nat),
    (0 < k)%nat -> (forall a b, dm' a b = dm' b a) ->
    (forall a b, ~ In a U -> ~ In b U -> dm' a b = dm a b) ->
    forall (g0 : list (list (Z * Z))) leaves rng,
      (length g0 <= n)%nat -> rows_true inf n dm g0 ->
      Forall (Forall (id_ok n)) leaves ->
      let gi := invalidate inf U g0 in
      let h0 := NND.init_from_neighbor_graph (NND.make_heap inf n k) (map (map fst) gi) (map (map snd) gi) in
      GWF dm' inf n k (fst (NND.init_random dm' k n (NND.init_rp_tree inf dm' h0 leaves) rng)).
Proof. exact update_restart_GWF. Qed.
Print Assumptions C04_update_restarts_from_a_true_graph.
