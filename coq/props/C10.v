(* C10 — the optimal-transport metric returns the true minimum transport cost.
   The network simplex itself (threaded spanning tree, block pivoting) is NOT
   verified; what is proved is the soundness of the optimality certificate that is
   evaluated, extracted, on every plan / potentials pair the implementation
   produces (exact integer arithmetic on scaled float64 values). *)
From Coq Require Import ZArith List Bool Lia.
From PV Require Import OT C10Proofs.
Import ListNotations.
Open Scope Z_scope.

(* Weak duality with slack e >= 0.  If the checker accepts (F, u, v) for cost matrix C
   -- F >= 0, every reduced cost c_ij + u_i - v_j >= -e, every arc carrying flow has
   reduced cost <= e -- then F costs at most 2 e mass(F) more than ANY non-negative
   plan G with the same row and column sums.  With e = 0: F is a minimiser of the
   transport LP for its marginals. *)
Theorem C10_certificate_sound :
  forall n m C u v e F,
    ot_cert_chk n m e C F u v = true ->
    forall G,
      (forall i j, (i < n)%nat -> (j < m)%nat -> 0 <= get2 G i j) ->
      (forall i, (i < n)%nat -> rowsum m G i = rowsum m F i) ->
      (forall j, (j < m)%nat -> colsum n G j = colsum n F j) ->
      cost n m C F <= cost n m C G + 2 * e * mass n m F.
Proof. exact ot_cert_sound. Qed.
Print Assumptions C10_certificate_sound.

(* non-vacuity: 2x2 instance, cost |i-j|, masses (3,1) -> (2,2): the north-west plan
   with potentials u = (0,1)... is accepted with e = 0; a worse plan is rejected *)
Example C10_example :
  ot_cert_chk 2 2 0 [[0; 1]; [1; 0]] [[2; 1]; [0; 1]] [0; 1] [0; 1] = true /\
  ot_cert_chk 2 2 0 [[0; 1]; [1; 0]] [[1; 2]; [1; 0]] [0; 1] [0; 1] = false.
Proof. vm_compute. split; reflexivity. Qed.
