(* C11 — the bounded top-k heap never loses a better candidate.
   Only statements, each closed by [exact lemma], with Print Assumptions.
   Model: model/Heap.v (transcription of utils.simple_heap_push,
   checked_heap_push, checked_flagged_heap_push, siftdown, deheap_sort).
   Keys are Z images of non-NaN float32 values under the order isomorphism. *)
From Coq Require Import ZArith List Bool Lia Permutation.
From PV Require Import Base Heap ListAux HeapProofs HeapTopK HeapArrays HeapSort.
Import ListNotations.
Open Scope Z_scope.

(* 1. A single push on the three arrays (all three variants; [checked] = false
      is simple_heap_push): it terminates (never runs out of fuel), and it is
      either a rejection that changes nothing -- exactly when the offer is not
      better than the root or (checked variants) the candidate is already
      present -- or it replaces the root triple by the offered triple, keeps the
      three arrays aligned, and restores the max-heap order. *)
Theorem C11_push_outcome :
  forall checked k ps ids fs p n f,
    (0 < k)%nat -> length ps = k -> length ids = k -> length fs = k ->
    heapP (zip3 ps ids fs) ->
    let l := zip3 ps ids fs in
    let res := heap_push checked ps ids fs p n f in
    (fst res = 0 /\ snd res = (ps, ids, fs) /\
       (getZ ps 0 <= p \/ (checked = true /\ In n ids)))
    \/
    (fst res = 1 /\ p < getZ ps 0 /\ (checked = true -> ~ In n ids) /\
       exists r, snd res = unzip3 r /\ length r = k /\ heapP r /\
                 Permutation (getE l 0 :: r) ((p, n, f) :: l)).
Proof.
  intros checked k ps ids fs p n f Hk L1 L2 L3 Hh l res.
  unfold res. rewrite heap_push_pushz by lia. fold l.
  assert (Ll : length l = k) by (unfold l; rewrite zip3_length; auto).
  pose proof (pushz_outcome checked l (p, n, f) ltac:(lia) Hh) as PO.
  assert (Hroot : key (getE l 0) = getZ ps 0) by (unfold l; rewrite getE_zip3 by lia; reflexivity).
  assert (Hids : map eid l = ids) by (unfold l; apply map_eid_zip3; lia).
  inversion PO as [Hw E | Hlt Hc Hd E | r Hlt Hc P Hr Lr E]; cbn [fst snd key eid] in *.
  - left. repeat split; auto. unfold l. apply unzip3_zip3; lia. left. lia.
  - left. repeat split; auto. unfold l. apply unzip3_zip3; lia. right. rewrite <- Hids. auto.
  - right. repeat split; auto; try lia. rewrite <- Hids. auto.
    exists r. repeat split; auto. lia.
Qed.
Print Assumptions C11_push_outcome.

(* 2. Refinement to the abstract specification "the k closest distinct
      candidates": starting from make_heap and pushing any sequence of offers
      (candidate id, flag), each with its own distance [delta id] <= +inf, the row
      holds: no candidate twice; every real entry is an offered triple
      (own distance, own flag); sentinels carry +inf; and every offered
      candidate that is not in the row is at least as far as EVERY entry of the
      row (sentinels included: so while a slot is free every finite offer is
      in).  For the unchecked variant the offers must be distinct, as its
      callers guarantee (visited table). *)
Theorem C11_topk_refinement :
  forall (delta : Z -> Z) (inf : Z) (checked : bool) (k : nat) (xs : list (Z * Z)),
    (0 < k)%nat ->
    Forall (fun o => fst o <> -1 /\ delta (fst o) <= inf) xs ->
    (checked = false -> NoDup (map fst xs)) ->
    let '(ps, ids, fs) := push_all3 delta checked (empty_row inf k) xs in
    let r := zip3 ps ids fs in
    length ps = k /\ length ids = k /\ length fs = k /\
    heapP r /\
    NoDup (map eid (real r)) /\
    (forall e, In e r -> eid e = -1 -> key e = inf) /\
    (forall e, In e (real r) -> key e < inf /\ exists f, In (eid e, f) xs /\ e = (delta (eid e), eid e, f)) /\
    (forall o, In o xs -> In (fst o) (map eid (real r)) \/ forall e, In e r -> key e <= delta (fst o)).
Proof.
  intros delta inf checked k xs Hk Hok Hnd.
  rewrite (push_all3_zip delta checked k) by
      (auto using wf_empty_row; rewrite zipa_empty_row; apply (inv_heap _ _ _ _ _ (Inv_empty delta inf k))).
  rewrite zipa_empty_row.
  pose proof (topk_spec delta inf checked k xs Hk Hok Hnd) as T. cbv zeta in T.
  set (r := push_all delta checked (empty_entries inf k) xs) in *.
  destruct T as [L [Hh [ND [Hs [Hr Hb]]]]].
  unfold unzip3. rewrite !map_length.
  change (zip3 (map key r) (map eid r) (map efl r)) with (zipa (unzip3 r)). rewrite zip3_unzip3.
  repeat split; auto.
  - apply (Hr e); auto.
  - apply (Hr e); auto.
Qed.
Print Assumptions C11_topk_refinement.

(* 3. Pushes never make a row worse (used by C13): for every threshold t the
      number of entries with priority <= t never decreases. *)
Theorem C11_push_count_monotone :
  forall checked l x t, (0 < length l)%nat -> heapP l ->
    (count_le t l <= count_le t (snd (pushz checked l x)))%nat.
Proof. exact push_count_le_mono. Qed.
Print Assumptions C11_push_count_monotone.

(* 4. Sorting a max-heap row: ascending, and a permutation of the
      (distance, index) pairs (pairs stay together); +inf entries therefore end
      up last. *)
Theorem C11_deheap_sort_row :
  forall ids ds, length ids = length ds -> (0 < length ds)%nat -> heapP (zip2 ds ids) ->
    exists ids' ds',
      deheap_sort_row ids ds = Some (ids', ds') /\
      Permutation (zip2 ds' ids') (zip2 ds ids) /\
      length ids' = length ids /\ length ds' = length ds /\
      (forall i j, (i <= j < length ds')%nat -> getZ ds' i <= getZ ds' j).
Proof. exact deheap_sort_row_correct. Qed.
Print Assumptions C11_deheap_sort_row.

(* ---- non-vacuity: a concrete 5-slot heap after 9 offers with ties and a
   repeated candidate meets every hypothesis, and the result is what the
   specification says. *)
Definition ex_delta (n : Z) : Z := match n with 0 => 30 | 1 => 10 | 2 => 10 | 3 => 50 | 4 => 20 | 5 => 40 | 6 => 10 | _ => 99 end.
Definition ex_offers : list (Z * Z) := [(0,1);(1,0);(2,1);(3,1);(1,1);(4,0);(5,1);(6,0);(7,1)].

Example C11_example_hypotheses :
  Forall (fun o => fst o <> -1 /\ ex_delta (fst o) <= 100) ex_offers.
Proof. repeat constructor; cbn; lia. Qed.

Example C11_example_result :
  let '(ps, ids, fs) := push_all3 ex_delta true (empty_row 100 5) ex_offers in
  (ps, ids, fs) = ([30; 10; 20; 10; 10], [0; 6; 4; 2; 1], [1; 0; 0; 1; 0]).
Proof. vm_compute. reflexivity. Qed.

(* the "own distance" hypothesis is needed: a candidate evicted and later
   re-offered with a SMALLER distance is accepted again *)
Example C11_readmission_possible :
  let a1 := snd (heap_push true [100] [-1] [0] 50 7 1) in
  let '(p1, i1, f1) := a1 in
  let a2 := snd (heap_push true p1 i1 f1 40 8 1) in     (* evicts candidate 7 *)
  let '(p2, i2, f2) := a2 in
  snd (heap_push true p2 i2 f2 30 7 1) = ([30], [7], [1]).
Proof. vm_compute. reflexivity. Qed.
