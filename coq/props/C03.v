(* C03 — accuracy floor.
   What a theorem can carry: the exactness clause.  When one random-projection tree leaf
   lists every point (the whole dataset fits in a leaf), then after init_rp_tree — for every
   size n, every heap width k >= 1, every symmetric finite distance table — row p of the
   graph either holds point q or holds only points at least as close to p as q is, for every
   pair p <> q: the graph is exact up to distance ties; and (C03_round_keeps_exact) every
   later low-memory NN-descent round keeps an exact graph exact.  The high-memory round and
   the final sort (a permutation of each row) are validated on the implementation (exact
   comparison with brute force on single-leaf datasets, both memory modes), not composed here.
   What no theorem can carry: "on average at least 90% / 80%" over data families is a
   statistical statement about inputs; it is measured by the harness and reported as a
   measurement (see DESIGN.md 6.3). *)
From Coq Require Import ZArith List Bool Lia.
From PV Require Import Base Heap NND HeapProofs HeapTopK NNDProofs C01Proofs C03Proofs.
Import ListNotations.
Open Scope Z_scope.

Theorem C03_single_leaf_exact :
  forall (dm : nat -> nat -> Z) (inf : Z) (n k : nat),
    (0 < k)%nat -> (forall a b, dm a b = dm b a) -> (forall a b, dm a b < inf) ->
    forall leaf p q,
      NoDup leaf -> (forall x, In x leaf -> 0 <= x < Z.of_nat n) -> (forall i, (i < n)%nat -> In (Z.of_nat i) leaf) ->
      (p < n)%nat -> (q < n)%nat -> p <> q ->
      let r := grow (init_rp_tree inf dm (make_heap inf n k) [leaf]) p in
      In (Z.of_nat q) (map eid (real r)) \/ forall e, In e r -> key e <= dm p q.
Proof. exact single_leaf_exact. Qed.
Print Assumptions C03_single_leaf_exact.

(* exactness, once reached, survives every later round: a low-memory round of NN-descent (and any
   further leaf updates) applied to a well-formed exact graph yields an exact graph again, because
   every push carries a true distance (C01) and a push only ever evicts the farthest entry *)
Theorem C03_round_keeps_exact :
  forall (dm : nat -> nat -> Z) (inf : Z) (n k : nat),
    (0 < k)%nat -> (forall a b, dm a b = dm b a) ->
    forall g ups T,
      C01Proofs.GWF dm inf n k g -> ExactG dm n g -> Forall (Forall (C01Proofs.upd_true dm n)) ups ->
      ExactG dm n (fst (apply_graph_updates_low_memory g ups T)) /\
      C01Proofs.GWF dm inf n k (fst (apply_graph_updates_low_memory g ups T)).
Proof. exact apply_low_keeps_exact. Qed.
Print Assumptions C03_round_keeps_exact.

Theorem C03_leaf_updates_keep_exact :
  forall (dm : nat -> nat -> Z) (inf : Z) (n k : nat),
    (0 < k)%nat -> (forall a b, dm a b = dm b a) ->
    forall g ups,
      C01Proofs.GWF dm inf n k g -> ExactG dm n g -> Forall (Forall (C01Proofs.upd_true dm n)) ups ->
      ExactG dm n (fold_left (fun g ul => fold_left apply_both ul g) ups g).
Proof. exact leaf_updates_keep_exact. Qed.

(* non-vacuity: 4 points on a line, k = 2: row 0 keeps its two nearest neighbours 1 and 2 *)
Example C03_example :
  let dm := fun a b : nat => Z.abs (Z.of_nat a * Z.of_nat a - Z.of_nat b * Z.of_nat b) in
  let g := init_rp_tree 1000 dm (make_heap 1000 4 2) [[2; 0; 3; 1]] in
  (getRow (g_ind g) 0, getRow (g_dist g) 0) = ([2; 1], [4; 1]).
Proof. vm_compute. reflexivity. Qed.

(* the two theorems meet: the graph after init_rp_tree on a single all-covering leaf satisfies the
   hypothesis ExactG of C03_round_keeps_exact (and GWF by C01_invariant_init_rp_tree) *)
Theorem C03_single_leaf_ExactG :
  forall (dm : nat -> nat -> Z) (inf : Z) (n k : nat),
    (0 < k)%nat -> (forall a b, dm a b = dm b a) -> (forall a b, dm a b < inf) ->
    forall leaf, NoDup leaf -> (forall x, In x leaf -> 0 <= x < Z.of_nat n) -> (forall i, (i < n)%nat -> In (Z.of_nat i) leaf) ->
    ExactG dm n (init_rp_tree inf dm (make_heap inf n k) [leaf]).
Proof. exact single_leaf_ExactG. Qed.
Print Assumptions C03_single_leaf_ExactG.

(* ---- the whole build (added): nn_descent in its default low-memory mode, on a dataset whose tree
   leaf lists every point, sorts a heap graph that is exact up to distance ties - for every generator
   state, iteration bound, stopping threshold and thread count.  (The final sort permutes each row.) ---- *)
From PV Require Import C01Loop C03Loop.
Theorem C03_single_leaf_build_exact :
  forall (dm : nat -> nat -> Z) (inf : Z) (n k maxc : nat),
    (0 < k)%nat -> (0 < maxc)%nat -> (0 < n)%nat -> (forall a b, dm a b = dm b a) -> (forall a b, dm a b < inf) ->
    forall leaf b rng iters thr_c T,
      NoDup leaf -> (forall x, In x leaf -> 0 <= x < Z.of_nat n) -> (forall i, (i < n)%nat -> In (Z.of_nat i) leaf) ->
      ExactG dm n (nn_descent_heap dm inf n k maxc b rng iters thr_c None (Some [leaf]) true T).
Proof. exact single_leaf_nn_descent_exact. Qed.
Print Assumptions C03_single_leaf_build_exact.
